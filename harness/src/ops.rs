//! Argument parsing helpers and the operation table.
//!
//! Argument handling is strictly left to right: the arity is checked first (`bad-op`), then every
//! argument is parsed in order and the first one that fails decides the response
//! (lexically malformed -> `bad-op`; scalar out of machine range -> `bad-arg`;
//! receiver out of range / rejected by the checked constructor -> `bad-recv`;
//! byte string not UTF-8 where a `String` is needed -> `skip-utf8`; clock -> `bad-clock`).

use crate::io_fmt::{Bytes, Lit, Out, Val};
use crate::{OpFn, R};
use sqldatetime::verif_hooks::{reads, reset_reads, set_now};
use sqldatetime::{
    Date, DateTime, Error, Formatter, IntervalDT, IntervalYM, OracleDate, Round, Time, Timestamp,
    Trunc,
};
use std::collections::hash_map::DefaultHasher;
use std::fmt::{self, Write as _};
use std::hash::{Hash, Hasher};

// ---------------------------------------------------------------------------------------------
// results

#[inline]
fn ok<V: Val>(o: &mut Out, v: V) -> R<()> {
    o.ok(&v);
    Ok(())
}

#[inline]
fn okr<V: Val>(o: &mut Out, r: Result<V, Error>) -> R<()> {
    match r {
        Ok(v) => ok(o, v),
        Err(e) => Err(en(e)),
    }
}

/// `err KIND` line of a crate error.
fn en(e: Error) -> &'static str {
    match e {
        Error::DateOutOfRange => "err DateOutOfRange",
        Error::TimeOutOfRange => "err TimeOutOfRange",
        Error::IntervalOutOfRange => "err IntervalOutOfRange",
        Error::InvalidNumber => "err InvalidNumber",
        Error::InvalidMonth => "err InvalidMonth",
        Error::InvalidDay => "err InvalidDay",
        Error::InvalidMinute => "err InvalidMinute",
        Error::InvalidSecond => "err InvalidSecond",
        Error::InvalidFraction => "err InvalidFraction",
        Error::InvalidDate => "err InvalidDate",
        Error::NumericOverflow => "err NumericOverflow",
        Error::DivideByZero => "err DivideByZero",
        Error::InvalidFormat(_) => "err InvalidFormat",
        Error::FormatError(_) => "err FormatError",
        Error::ParseError(_) => "err ParseError",
        Error::TryReserveError(_) => "err TryReserveError",
    }
}

const SERDE: &str = "err Serde";

// ---------------------------------------------------------------------------------------------
// arguments

#[inline]
fn need(a: &[&str], n: usize) -> R<()> {
    if a.len() == n {
        Ok(())
    } else {
        Err("bad-op")
    }
}

/// Integer argument: optional `-`, then one or more decimal digits; must fit i128.
#[inline]
pub fn int(s: &str) -> R<i128> {
    let b = s.as_bytes();
    let (neg, d) = match b.first() {
        Some(b'-') => (true, &b[1..]),
        _ => (false, b),
    };
    if d.is_empty() {
        return Err("bad-op");
    }
    if d.len() <= 18 {
        let mut v: i64 = 0;
        for &c in d {
            if !c.is_ascii_digit() {
                return Err("bad-op");
            }
            v = v * 10 + (c - b'0') as i64;
        }
        return Ok(if neg { -(v as i128) } else { v as i128 });
    }
    let mut v: i128 = 0;
    for &c in d {
        if !c.is_ascii_digit() {
            return Err("bad-op");
        }
        let digit = (c - b'0') as i128;
        v = v.checked_mul(10).ok_or("bad-op")?;
        // accumulate negatively so that i128::MIN parses
        v = if neg {
            v.checked_sub(digit)
        } else {
            v.checked_add(digit)
        }
        .ok_or("bad-op")?;
    }
    Ok(v)
}

/// Plain scalar (`i32`, `u32`, `i64`, ...): `bad-arg` when it does not fit.
#[inline]
fn sc<T: TryFrom<i128>>(s: &str) -> R<T> {
    T::try_from(int(s)?).map_err(|_| "bad-arg")
}

fn hexval(c: u8) -> Option<u8> {
    match c {
        b'0'..=b'9' => Some(c - b'0'),
        b'a'..=b'f' => Some(c - b'a' + 10),
        _ => None,
    }
}

/// f64 argument: `x` + exactly 16 lower-case hex digits.
fn fl(s: &str) -> R<f64> {
    let b = s.as_bytes();
    if b.len() != 17 || b[0] != b'x' {
        return Err("bad-op");
    }
    let mut v: u64 = 0;
    for &c in &b[1..] {
        v = (v << 4) | hexval(c).ok_or("bad-op")? as u64;
    }
    Ok(f64::from_bits(v))
}

/// Byte-string argument: `s:` + lower-case hex.
fn bytes(s: &str) -> R<Vec<u8>> {
    let b = s.as_bytes();
    if b.len() < 2 || &b[..2] != b"s:" || b.len() % 2 != 0 {
        return Err("bad-op");
    }
    let mut v = Vec::with_capacity((b.len() - 2) / 2);
    for p in b[2..].chunks_exact(2) {
        v.push((hexval(p[0]).ok_or("bad-op")? << 4) | hexval(p[1]).ok_or("bad-op")?);
    }
    Ok(v)
}

/// Byte-string argument that must become a `String`.
fn text(s: &str) -> R<String> {
    String::from_utf8(bytes(s)?).map_err(|_| "skip-utf8")
}

/// A type usable as a receiver: raw integer -> value through the checked constructor
/// (value -> raw integer is `Val`).
pub trait Raw: Sized + Copy {
    /// Width of the bincode encoding in bytes (4: i32, 8: i64).
    const WIDTH: usize;
    fn mk(v: i128) -> Option<Self>;
}

macro_rules! raw_impl {
    ($($t:ty, $m:ty, $w:expr, $ctor:ident;)*) => {$(
        impl Raw for $t {
            const WIDTH: usize = $w;
            #[inline]
            fn mk(v: i128) -> Option<Self> {
                <$t>::$ctor(<$m>::try_from(v).ok()?).ok()
            }
        }
    )*};
}
raw_impl! {
    Date, i32, 4, try_from_days;
    Time, i64, 8, try_from_usecs;
    Timestamp, i64, 8, try_from_usecs;
    IntervalYM, i32, 4, try_from_months;
    IntervalDT, i64, 8, try_from_usecs;
    OracleDate, i64, 8, try_from_usecs;
}

/// Receiver / raw value argument.
#[inline]
fn rv<T: Raw>(s: &str) -> R<T> {
    T::mk(int(s)?).ok_or("bad-recv")
}

/// CLOCK = seven integers. Injects the clock and resets the read counter.
fn clock(a: &[&str], o: &mut Out) -> R<()> {
    debug_assert_eq!(a.len(), 7);
    let mut v = [0i128; 7];
    for k in 0..7 {
        v[k] = int(a[k])?;
    }
    let ndt = (|| {
        // The same bounds as the model driver, then chrono's own checks.
        if !(-262000..=262000).contains(&v[0]) || !(0..=999_999).contains(&v[6]) {
            return None;
        }
        let u = |x: i128| u32::try_from(x).ok();
        chrono::NaiveDate::from_ymd_opt(v[0] as i32, u(v[1])?, u(v[2])?)?.and_hms_micro_opt(
            u(v[3])?,
            u(v[4])?,
            u(v[5])?,
            u(v[6])?,
        )
    })()
    .ok_or("bad-clock")?;
    set_now(Some(ndt));
    o.clock_set = true;
    reset_reads();
    Ok(())
}

#[derive(Copy, Clone)]
enum Unit {
    Century,
    Year,
    IsoYear,
    Quarter,
    Month,
    Week,
    IsoWeek,
    MonthStartWeek,
    Day,
    SundayStartWeek,
    Hour,
    Minute,
}

fn unit(s: &str) -> R<Unit> {
    Ok(match s {
        "century" => Unit::Century,
        "year" => Unit::Year,
        "iso_year" => Unit::IsoYear,
        "quarter" => Unit::Quarter,
        "month" => Unit::Month,
        "week" => Unit::Week,
        "iso_week" => Unit::IsoWeek,
        "month_start_week" => Unit::MonthStartWeek,
        "day" => Unit::Day,
        "sunday_start_week" => Unit::SundayStartWeek,
        "hour" => Unit::Hour,
        "minute" => Unit::Minute,
        _ => return Err("bad-op"),
    })
}

// ---------------------------------------------------------------------------------------------
// generic pieces shared by several types

fn trunc<T: Trunc + Val>(o: &mut Out, u: Unit, v: T) -> R<()> {
    okr(
        o,
        match u {
            Unit::Century => v.trunc_century(),
            Unit::Year => v.trunc_year(),
            Unit::IsoYear => v.trunc_iso_year(),
            Unit::Quarter => v.trunc_quarter(),
            Unit::Month => v.trunc_month(),
            Unit::Week => v.trunc_week(),
            Unit::IsoWeek => v.trunc_iso_week(),
            Unit::MonthStartWeek => v.trunc_month_start_week(),
            Unit::Day => v.trunc_day(),
            Unit::SundayStartWeek => v.trunc_sunday_start_week(),
            Unit::Hour => v.trunc_hour(),
            Unit::Minute => v.trunc_minute(),
        },
    )
}

fn round<T: Round + Val>(o: &mut Out, u: Unit, v: T) -> R<()> {
    okr(
        o,
        match u {
            Unit::Century => v.round_century(),
            Unit::Year => v.round_year(),
            Unit::IsoYear => v.round_iso_year(),
            Unit::Quarter => v.round_quarter(),
            Unit::Month => v.round_month(),
            Unit::Week => v.round_week(),
            Unit::IsoWeek => v.round_iso_week(),
            Unit::MonthStartWeek => v.round_month_start_week(),
            Unit::Day => v.round_day(),
            Unit::SundayStartWeek => v.round_sunday_start_week(),
            Unit::Hour => v.round_hour(),
            Unit::Minute => v.round_minute(),
        },
    )
}

/// `year month day hour minute second date` through the `DateTime` trait.
fn acc<T: DateTime>(o: &mut Out, v: T) -> R<()> {
    ok(
        o,
        (
            v.year(),
            v.month(),
            v.day(),
            v.hour(),
            v.minute(),
            v.second(),
            v.date(),
        ),
    )
}

/// `eq ord` through `PartialEq<B>` / `PartialOrd<B>` (the mixed-type comparisons).
fn cmpx<A: PartialEq<B> + PartialOrd<B>, B>(o: &mut Out, a: A, b: B) -> R<()> {
    ok(o, (a == b, a.partial_cmp(&b)))
}

/// `eq ord` through the derived `Ord`.
fn cmpo<A: Ord>(o: &mut Out, a: A, b: A) -> R<()> {
    ok(o, (a == b, a.cmp(&b)))
}

/// The private field list of a `Formatter`, from its `Debug` rendering, blanks removed.
fn field_list(f: &Formatter) -> String {
    let d = format!("{:?}", f);
    const KEY: &str = "fields: [";
    let start = match d.find(KEY) {
        Some(p) => p + KEY.len(),
        None => return "[?]".to_string(),
    };
    let mut depth = 1usize;
    let mut res = String::from("[");
    for c in d[start..].chars() {
        match c {
            '[' => depth += 1,
            ']' => {
                depth -= 1;
                if depth == 0 {
                    break;
                }
            }
            _ => {}
        }
        if c != ' ' {
            res.push(c);
        }
    }
    res.push(']');
    res
}

/// `fmt::Write` sink holding at most `cap` bytes; an append that does not fit fails and appends nothing.
struct Bounded {
    buf: String,
    cap: usize,
}

impl fmt::Write for Bounded {
    fn write_str(&mut self, s: &str) -> fmt::Result {
        match self.buf.len().checked_add(s.len()) {
            Some(n) if n <= self.cap => {
                self.buf.push_str(s);
                Ok(())
            }
            _ => Err(fmt::Error),
        }
    }
}

fn hash_of<T: Hash>(v: &T) -> u64 {
    let mut h = DefaultHasher::new();
    v.hash(&mut h);
    h.finish()
}

/// Runs `$body` with the type alias `$T` bound to the type named by the tag `$tag`.
/// (`DateTimeFormat` is not nameable outside the crate, so this cannot be a generic fn.)
macro_rules! with_ty {
    ($tag:expr, $T:ident => $body:expr) => {
        match $tag {
            "D" => {
                type $T = Date;
                $body
            }
            "T" => {
                type $T = Time;
                $body
            }
            "TS" => {
                type $T = Timestamp;
                $body
            }
            "YM" => {
                type $T = IntervalYM;
                $body
            }
            "DT" => {
                type $T = IntervalDT;
                $body
            }
            "OD" => {
                type $T = OracleDate;
                $body
            }
            _ => Err("bad-op"),
        }
    };
}

// ---------------------------------------------------------------------------------------------
// the operation table

/// Maps an operation name to its implementation. `a` = the arguments after the op name.
pub fn resolve(op: &str) -> Option<OpFn> {
    let f: OpFn = match op {
        // ------------------------------------------------------------------ Date
        "D.try_from_ymd" => |a, o| {
            need(a, 3)?;
            let (y, m, d): (i32, u32, u32) = (sc(a[0])?, sc(a[1])?, sc(a[2])?);
            okr(o, Date::try_from_ymd(y, m, d))
        },
        "D.is_valid" => |a, o| {
            need(a, 3)?;
            let (y, m, d): (i32, u32, u32) = (sc(a[0])?, sc(a[1])?, sc(a[2])?);
            ok(o, Date::is_valid(y, m, d))
        },
        "D.try_from_days" => |a, o| {
            need(a, 1)?;
            let k: i32 = sc(a[0])?;
            okr(o, Date::try_from_days(k))
        },
        "D.extract" => |a, o| {
            need(a, 1)?;
            let n: Date = rv(a[0])?;
            ok(o, n.extract())
        },
        "D.dow" => |a, o| {
            need(a, 1)?;
            let n: Date = rv(a[0])?;
            ok(o, n.day_of_week())
        },
        "D.and_hms" => |a, o| {
            need(a, 5)?;
            let n: Date = rv(a[0])?;
            let (h, mi, s, us): (u32, u32, u32, u32) =
                (sc(a[1])?, sc(a[2])?, sc(a[3])?, sc(a[4])?);
            okr(o, n.and_hms(h, mi, s, us))
        },
        "D.and_time" => |a, o| {
            need(a, 2)?;
            let (n, t): (Date, Time) = (rv(a[0])?, rv(a[1])?);
            ok(o, n.and_time(t))
        },
        "D.add_days" => |a, o| {
            need(a, 2)?;
            let n: Date = rv(a[0])?;
            let k: i32 = sc(a[1])?;
            okr(o, n.add_days(k))
        },
        "D.sub_days" => |a, o| {
            need(a, 2)?;
            let n: Date = rv(a[0])?;
            let k: i32 = sc(a[1])?;
            okr(o, n.sub_days(k))
        },
        "D.sub_date" => |a, o| {
            need(a, 2)?;
            let (x, y): (Date, Date) = (rv(a[0])?, rv(a[1])?);
            ok(o, x.sub_date(y))
        },
        "D.add_ym" => |a, o| {
            need(a, 2)?;
            let (n, i): (Date, IntervalYM) = (rv(a[0])?, rv(a[1])?);
            okr(o, n.add_interval_ym(i))
        },
        "D.sub_ym" => |a, o| {
            need(a, 2)?;
            let (n, i): (Date, IntervalYM) = (rv(a[0])?, rv(a[1])?);
            okr(o, n.sub_interval_ym(i))
        },
        "D.add_dt" => |a, o| {
            need(a, 2)?;
            let (n, i): (Date, IntervalDT) = (rv(a[0])?, rv(a[1])?);
            okr(o, n.add_interval_dt(i))
        },
        "D.sub_dt" => |a, o| {
            need(a, 2)?;
            let (n, i): (Date, IntervalDT) = (rv(a[0])?, rv(a[1])?);
            okr(o, n.sub_interval_dt(i))
        },
        "D.add_time" => |a, o| {
            need(a, 2)?;
            let (n, t): (Date, Time) = (rv(a[0])?, rv(a[1])?);
            ok(o, n.add_time(t))
        },
        "D.sub_time" => |a, o| {
            need(a, 2)?;
            let (n, t): (Date, Time) = (rv(a[0])?, rv(a[1])?);
            okr(o, n.sub_time(t))
        },
        "D.sub_ts" => |a, o| {
            need(a, 2)?;
            let (n, ts): (Date, Timestamp) = (rv(a[0])?, rv(a[1])?);
            ok(o, n.sub_timestamp(ts))
        },
        "D.last_day" => |a, o| {
            need(a, 1)?;
            let n: Date = rv(a[0])?;
            ok(o, n.last_day_of_month())
        },
        "D.trunc" => |a, o| {
            need(a, 2)?;
            let u = unit(a[0])?;
            let n: Date = rv(a[1])?;
            trunc(o, u, n)
        },
        "D.round" => |a, o| {
            need(a, 2)?;
            let u = unit(a[0])?;
            let n: Date = rv(a[1])?;
            round(o, u, n)
        },
        "D.acc" => |a, o| {
            need(a, 1)?;
            let n: Date = rv(a[0])?;
            acc(o, n)
        },
        "D.cmp_TS" => |a, o| {
            need(a, 2)?;
            let (n, ts): (Date, Timestamp) = (rv(a[0])?, rv(a[1])?);
            cmpx(o, n, ts)
        },
        "D.cmp_OD" => |a, o| {
            need(a, 2)?;
            let (n, od): (Date, OracleDate) = (rv(a[0])?, rv(a[1])?);
            cmpx(o, n, od)
        },
        "D.cmp" => |a, o| {
            need(a, 2)?;
            let (x, y): (Date, Date) = (rv(a[0])?, rv(a[1])?);
            cmpo(o, x, y)
        },
        "K.consts" => |a, o| {
            // the public range constants: Date MIN MAX, Time ZERO MAX, Timestamp MIN MAX, IntervalYM MIN ZERO MAX,
            // IntervalDT MIN ZERO MAX, OracleDate MIN MAX
            need(a, 0)?;
            ok(o, (
                (Date::MIN.days() as i64, Date::MAX.days() as i64, Time::ZERO.usecs(), Time::MAX.usecs()),
                (Timestamp::MIN.usecs(), Timestamp::MAX.usecs()),
                (IntervalYM::MIN.months() as i64, IntervalYM::ZERO.months() as i64, IntervalYM::MAX.months() as i64),
                (IntervalDT::MIN.usecs(), IntervalDT::ZERO.usecs(), IntervalDT::MAX.usecs()),
                (OracleDate::MIN.usecs(), OracleDate::MAX.usecs()),
            ))
        },
        "D.now" => |a, o| {
            need(a, 7)?;
            clock(a, o)?;
            okr(o, Date::now())
        },
        "D.to_TS" => |a, o| {
            need(a, 1)?;
            let n: Date = rv(a[0])?;
            ok(o, Timestamp::from(n))
        },

        // ------------------------------------------------------------------ Time
        "T.try_from_hms" => |a, o| {
            need(a, 4)?;
            let (h, mi, s, us): (u32, u32, u32, u32) =
                (sc(a[0])?, sc(a[1])?, sc(a[2])?, sc(a[3])?);
            okr(o, Time::try_from_hms(h, mi, s, us))
        },
        "T.is_valid" => |a, o| {
            need(a, 4)?;
            let (h, mi, s, us): (u32, u32, u32, u32) =
                (sc(a[0])?, sc(a[1])?, sc(a[2])?, sc(a[3])?);
            ok(o, Time::is_valid(h, mi, s, us))
        },
        "T.try_from_usecs" => |a, o| {
            need(a, 1)?;
            let k: i64 = sc(a[0])?;
            okr(o, Time::try_from_usecs(k))
        },
        "T.extract" => |a, o| {
            need(a, 1)?;
            let t: Time = rv(a[0])?;
            ok(o, t.extract())
        },
        "T.sub_time" => |a, o| {
            need(a, 2)?;
            let (x, y): (Time, Time) = (rv(a[0])?, rv(a[1])?);
            ok(o, x.sub_time(y))
        },
        "T.add_dt" => |a, o| {
            need(a, 2)?;
            let (t, i): (Time, IntervalDT) = (rv(a[0])?, rv(a[1])?);
            ok(o, t.add_interval_dt(i))
        },
        "T.sub_dt" => |a, o| {
            need(a, 2)?;
            let (t, i): (Time, IntervalDT) = (rv(a[0])?, rv(a[1])?);
            ok(o, t.sub_interval_dt(i))
        },
        "T.mul_f64" => |a, o| {
            need(a, 2)?;
            let t: Time = rv(a[0])?;
            let x = fl(a[1])?;
            okr(o, t.mul_f64(x))
        },
        "T.div_f64" => |a, o| {
            need(a, 2)?;
            let t: Time = rv(a[0])?;
            let x = fl(a[1])?;
            okr(o, t.div_f64(x))
        },
        "T.acc" => |a, o| {
            need(a, 1)?;
            let t: Time = rv(a[0])?;
            acc(o, t)
        },
        "T.from_TS" => |a, o| {
            need(a, 1)?;
            let ts: Timestamp = rv(a[0])?;
            ok(o, Time::from(ts))
        },
        "T.from_DT" => |a, o| {
            need(a, 1)?;
            let i: IntervalDT = rv(a[0])?;
            ok(o, Time::from(i))
        },
        "T.from_OD" => |a, o| {
            need(a, 1)?;
            let od: OracleDate = rv(a[0])?;
            ok(o, Time::from(od))
        },
        "T.cmp_DT" => |a, o| {
            need(a, 2)?;
            let (t, i): (Time, IntervalDT) = (rv(a[0])?, rv(a[1])?);
            cmpx(o, t, i)
        },
        "T.cmp" => |a, o| {
            need(a, 2)?;
            let (x, y): (Time, Time) = (rv(a[0])?, rv(a[1])?);
            cmpo(o, x, y)
        },

        // ------------------------------------------------------------------ Timestamp
        "TS.new" => |a, o| {
            need(a, 2)?;
            let (d, t): (Date, Time) = (rv(a[0])?, rv(a[1])?);
            ok(o, Timestamp::new(d, t))
        },
        "TS.extract" => |a, o| {
            need(a, 1)?;
            let ts: Timestamp = rv(a[0])?;
            ok(o, ts.extract())
        },
        "TS.try_from_usecs" => |a, o| {
            need(a, 1)?;
            let k: i64 = sc(a[0])?;
            okr(o, Timestamp::try_from_usecs(k))
        },
        "TS.add_dt" => |a, o| {
            need(a, 2)?;
            let (ts, i): (Timestamp, IntervalDT) = (rv(a[0])?, rv(a[1])?);
            okr(o, ts.add_interval_dt(i))
        },
        "TS.sub_dt" => |a, o| {
            need(a, 2)?;
            let (ts, i): (Timestamp, IntervalDT) = (rv(a[0])?, rv(a[1])?);
            okr(o, ts.sub_interval_dt(i))
        },
        "TS.add_ym" => |a, o| {
            need(a, 2)?;
            let (ts, i): (Timestamp, IntervalYM) = (rv(a[0])?, rv(a[1])?);
            okr(o, ts.add_interval_ym(i))
        },
        "TS.sub_ym" => |a, o| {
            need(a, 2)?;
            let (ts, i): (Timestamp, IntervalYM) = (rv(a[0])?, rv(a[1])?);
            okr(o, ts.sub_interval_ym(i))
        },
        "TS.add_time" => |a, o| {
            need(a, 2)?;
            let (ts, t): (Timestamp, Time) = (rv(a[0])?, rv(a[1])?);
            okr(o, ts.add_time(t))
        },
        "TS.sub_time" => |a, o| {
            need(a, 2)?;
            let (ts, t): (Timestamp, Time) = (rv(a[0])?, rv(a[1])?);
            okr(o, ts.sub_time(t))
        },
        "TS.add_days" => |a, o| {
            need(a, 2)?;
            let ts: Timestamp = rv(a[0])?;
            let x = fl(a[1])?;
            okr(o, ts.add_days(x))
        },
        "TS.sub_days" => |a, o| {
            need(a, 2)?;
            let ts: Timestamp = rv(a[0])?;
            let x = fl(a[1])?;
            okr(o, ts.sub_days(x))
        },
        "TS.sub_date" => |a, o| {
            need(a, 2)?;
            let (ts, d): (Timestamp, Date) = (rv(a[0])?, rv(a[1])?);
            ok(o, ts.sub_date(d))
        },
        "TS.sub_ts" => |a, o| {
            need(a, 2)?;
            let (x, y): (Timestamp, Timestamp) = (rv(a[0])?, rv(a[1])?);
            ok(o, x.sub_timestamp(y))
        },
        "TS.last_day" => |a, o| {
            need(a, 1)?;
            let ts: Timestamp = rv(a[0])?;
            ok(o, ts.last_day_of_month())
        },
        "TS.trunc" => |a, o| {
            need(a, 2)?;
            let u = unit(a[0])?;
            let ts: Timestamp = rv(a[1])?;
            trunc(o, u, ts)
        },
        "TS.round" => |a, o| {
            need(a, 2)?;
            let u = unit(a[0])?;
            let ts: Timestamp = rv(a[1])?;
            round(o, u, ts)
        },
        "TS.acc" => |a, o| {
            need(a, 1)?;
            let ts: Timestamp = rv(a[0])?;
            acc(o, ts)
        },
        "TS.cmp_D" => |a, o| {
            need(a, 2)?;
            let (ts, d): (Timestamp, Date) = (rv(a[0])?, rv(a[1])?);
            cmpx(o, ts, d)
        },
        "TS.cmp_OD" => |a, o| {
            need(a, 2)?;
            let (ts, od): (Timestamp, OracleDate) = (rv(a[0])?, rv(a[1])?);
            cmpx(o, ts, od)
        },
        "TS.cmp" => |a, o| {
            need(a, 2)?;
            let (x, y): (Timestamp, Timestamp) = (rv(a[0])?, rv(a[1])?);
            cmpo(o, x, y)
        },
        "TS.now" => |a, o| {
            need(a, 7)?;
            clock(a, o)?;
            okr(o, Timestamp::now())
        },
        "TS.from_T" => |a, o| {
            need(a, 8)?;
            let t: Time = rv(a[0])?;
            clock(&a[1..], o)?;
            okr(o, Timestamp::try_from(t))
        },
        "TS.oracle_sub_date" => |a, o| {
            need(a, 2)?;
            let (ts, od): (Timestamp, OracleDate) = (rv(a[0])?, rv(a[1])?);
            ok(o, ts.oracle_sub_date(od))
        },
        "TS.oracle_add_days" => |a, o| {
            need(a, 2)?;
            let ts: Timestamp = rv(a[0])?;
            let x = fl(a[1])?;
            okr(o, ts.oracle_add_days(x))
        },
        "TS.oracle_sub_days" => |a, o| {
            need(a, 2)?;
            let ts: Timestamp = rv(a[0])?;
            let x = fl(a[1])?;
            okr(o, ts.oracle_sub_days(x))
        },

        // ------------------------------------------------------------------ IntervalYM
        "YM.try_from_ym" => |a, o| {
            need(a, 2)?;
            let (y, m): (u32, u32) = (sc(a[0])?, sc(a[1])?);
            okr(o, IntervalYM::try_from_ym(y, m))
        },
        "YM.is_valid_ym" => |a, o| {
            need(a, 2)?;
            let (y, m): (u32, u32) = (sc(a[0])?, sc(a[1])?);
            ok(o, IntervalYM::is_valid_ym(y, m))
        },
        "YM.try_from_months" => |a, o| {
            need(a, 1)?;
            let k: i32 = sc(a[0])?;
            okr(o, IntervalYM::try_from_months(k))
        },
        "YM.extract" => |a, o| {
            need(a, 1)?;
            let i: IntervalYM = rv(a[0])?;
            ok(o, i.extract())
        },
        "YM.add_ym" => |a, o| {
            need(a, 2)?;
            let (x, y): (IntervalYM, IntervalYM) = (rv(a[0])?, rv(a[1])?);
            okr(o, x.add_interval_ym(y))
        },
        "YM.sub_ym" => |a, o| {
            need(a, 2)?;
            let (x, y): (IntervalYM, IntervalYM) = (rv(a[0])?, rv(a[1])?);
            okr(o, x.sub_interval_ym(y))
        },
        "YM.mul_f64" => |a, o| {
            need(a, 2)?;
            let i: IntervalYM = rv(a[0])?;
            let x = fl(a[1])?;
            okr(o, i.mul_f64(x))
        },
        "YM.div_f64" => |a, o| {
            need(a, 2)?;
            let i: IntervalYM = rv(a[0])?;
            let x = fl(a[1])?;
            okr(o, i.div_f64(x))
        },
        "YM.neg" => |a, o| {
            need(a, 1)?;
            let i: IntervalYM = rv(a[0])?;
            ok(o, -i)
        },
        "YM.acc" => |a, o| {
            need(a, 1)?;
            let i: IntervalYM = rv(a[0])?;
            acc(o, i)
        },
        "YM.cmp" => |a, o| {
            need(a, 2)?;
            let (x, y): (IntervalYM, IntervalYM) = (rv(a[0])?, rv(a[1])?);
            cmpo(o, x, y)
        },

        // ------------------------------------------------------------------ IntervalDT
        "DT.try_from_dhms" => |a, o| {
            need(a, 5)?;
            let (d, h, mi, s, us): (u32, u32, u32, u32, u32) =
                (sc(a[0])?, sc(a[1])?, sc(a[2])?, sc(a[3])?, sc(a[4])?);
            okr(o, IntervalDT::try_from_dhms(d, h, mi, s, us))
        },
        "DT.is_valid" => |a, o| {
            need(a, 5)?;
            let (d, h, mi, s, us): (u32, u32, u32, u32, u32) =
                (sc(a[0])?, sc(a[1])?, sc(a[2])?, sc(a[3])?, sc(a[4])?);
            ok(o, IntervalDT::is_valid(d, h, mi, s, us))
        },
        "DT.try_from_usecs" => |a, o| {
            need(a, 1)?;
            let k: i64 = sc(a[0])?;
            okr(o, IntervalDT::try_from_usecs(k))
        },
        "DT.extract" => |a, o| {
            need(a, 1)?;
            let i: IntervalDT = rv(a[0])?;
            ok(o, i.extract())
        },
        "DT.add_dt" => |a, o| {
            need(a, 2)?;
            let (x, y): (IntervalDT, IntervalDT) = (rv(a[0])?, rv(a[1])?);
            okr(o, x.add_interval_dt(y))
        },
        "DT.sub_dt" => |a, o| {
            need(a, 2)?;
            let (x, y): (IntervalDT, IntervalDT) = (rv(a[0])?, rv(a[1])?);
            okr(o, x.sub_interval_dt(y))
        },
        "DT.mul_f64" => |a, o| {
            need(a, 2)?;
            let i: IntervalDT = rv(a[0])?;
            let x = fl(a[1])?;
            okr(o, i.mul_f64(x))
        },
        "DT.div_f64" => |a, o| {
            need(a, 2)?;
            let i: IntervalDT = rv(a[0])?;
            let x = fl(a[1])?;
            okr(o, i.div_f64(x))
        },
        "DT.sub_time" => |a, o| {
            need(a, 2)?;
            let (i, t): (IntervalDT, Time) = (rv(a[0])?, rv(a[1])?);
            okr(o, i.sub_time(t))
        },
        "DT.neg" => |a, o| {
            need(a, 1)?;
            let i: IntervalDT = rv(a[0])?;
            ok(o, -i)
        },
        "DT.acc" => |a, o| {
            need(a, 1)?;
            let i: IntervalDT = rv(a[0])?;
            acc(o, i)
        },
        "DT.from_T" => |a, o| {
            need(a, 1)?;
            let t: Time = rv(a[0])?;
            ok(o, IntervalDT::from(t))
        },
        "DT.cmp_T" => |a, o| {
            need(a, 2)?;
            let (i, t): (IntervalDT, Time) = (rv(a[0])?, rv(a[1])?);
            cmpx(o, i, t)
        },
        "DT.cmp" => |a, o| {
            need(a, 2)?;
            let (x, y): (IntervalDT, IntervalDT) = (rv(a[0])?, rv(a[1])?);
            cmpo(o, x, y)
        },

        // ------------------------------------------------------------------ oracle::Date
        "OD.new" => |a, o| {
            need(a, 2)?;
            let (d, t): (Date, Time) = (rv(a[0])?, rv(a[1])?);
            ok(o, OracleDate::new(d, t))
        },
        "OD.extract" => |a, o| {
            need(a, 1)?;
            let od: OracleDate = rv(a[0])?;
            ok(o, od.extract())
        },
        "OD.try_from_usecs" => |a, o| {
            need(a, 1)?;
            let k: i64 = sc(a[0])?;
            okr(o, OracleDate::try_from_usecs(k))
        },
        "OD.add_dt" => |a, o| {
            need(a, 2)?;
            let (od, i): (OracleDate, IntervalDT) = (rv(a[0])?, rv(a[1])?);
            okr(o, od.add_interval_dt(i))
        },
        "OD.sub_dt" => |a, o| {
            need(a, 2)?;
            let (od, i): (OracleDate, IntervalDT) = (rv(a[0])?, rv(a[1])?);
            okr(o, od.sub_interval_dt(i))
        },
        "OD.add_ym" => |a, o| {
            need(a, 2)?;
            let (od, i): (OracleDate, IntervalYM) = (rv(a[0])?, rv(a[1])?);
            okr(o, od.add_interval_ym(i))
        },
        "OD.sub_ym" => |a, o| {
            need(a, 2)?;
            let (od, i): (OracleDate, IntervalYM) = (rv(a[0])?, rv(a[1])?);
            okr(o, od.sub_interval_ym(i))
        },
        "OD.add_time" => |a, o| {
            need(a, 2)?;
            let (od, t): (OracleDate, Time) = (rv(a[0])?, rv(a[1])?);
            okr(o, od.add_time(t))
        },
        "OD.sub_time" => |a, o| {
            need(a, 2)?;
            let (od, t): (OracleDate, Time) = (rv(a[0])?, rv(a[1])?);
            okr(o, od.sub_time(t))
        },
        "OD.add_days" => |a, o| {
            need(a, 2)?;
            let od: OracleDate = rv(a[0])?;
            let x = fl(a[1])?;
            okr(o, od.add_days(x))
        },
        "OD.sub_days" => |a, o| {
            need(a, 2)?;
            let od: OracleDate = rv(a[0])?;
            let x = fl(a[1])?;
            okr(o, od.sub_days(x))
        },
        "OD.sub_date" => |a, o| {
            need(a, 2)?;
            let (x, y): (OracleDate, OracleDate) = (rv(a[0])?, rv(a[1])?);
            ok(o, x.sub_date(y))
        },
        "OD.sub_ts" => |a, o| {
            need(a, 2)?;
            let (od, ts): (OracleDate, Timestamp) = (rv(a[0])?, rv(a[1])?);
            ok(o, od.sub_timestamp(ts))
        },
        "OD.last_day" => |a, o| {
            need(a, 1)?;
            let od: OracleDate = rv(a[0])?;
            ok(o, od.last_day_of_month())
        },
        "OD.trunc" => |a, o| {
            need(a, 2)?;
            let u = unit(a[0])?;
            let od: OracleDate = rv(a[1])?;
            trunc(o, u, od)
        },
        "OD.round" => |a, o| {
            need(a, 2)?;
            let u = unit(a[0])?;
            let od: OracleDate = rv(a[1])?;
            round(o, u, od)
        },
        "OD.acc" => |a, o| {
            need(a, 1)?;
            let od: OracleDate = rv(a[0])?;
            acc(o, od)
        },
        "OD.from_TS" => |a, o| {
            need(a, 1)?;
            let ts: Timestamp = rv(a[0])?;
            ok(o, OracleDate::from(ts))
        },
        "OD.to_TS" => |a, o| {
            need(a, 1)?;
            let od: OracleDate = rv(a[0])?;
            ok(o, Timestamp::from(od))
        },
        "OD.from_T" => |a, o| {
            need(a, 8)?;
            let t: Time = rv(a[0])?;
            clock(&a[1..], o)?;
            okr(o, OracleDate::try_from(t))
        },
        "OD.now" => |a, o| {
            need(a, 7)?;
            clock(a, o)?;
            okr(o, OracleDate::now())
        },
        "OD.cmp_TS" => |a, o| {
            need(a, 2)?;
            let (od, ts): (OracleDate, Timestamp) = (rv(a[0])?, rv(a[1])?);
            cmpx(o, od, ts)
        },
        "OD.cmp_D" => |a, o| {
            need(a, 2)?;
            let (od, d): (OracleDate, Date) = (rv(a[0])?, rv(a[1])?);
            cmpx(o, od, d)
        },
        "OD.cmp" => |a, o| {
            need(a, 2)?;
            let (x, y): (OracleDate, OracleDate) = (rv(a[0])?, rv(a[1])?);
            cmpo(o, x, y)
        },

        // ------------------------------------------------------------------ Formatter
        "F.try_new" => |a, o| {
            need(a, 1)?;
            let pic = text(a[0])?;
            let f = Formatter::try_new(&pic).map_err(en)?;
            ok(o, Lit(field_list(&f)))
        },
        "F.try_new_idx" => |a, o| {
            // F.try_new_idx s:ALPHABET LEN IDX : the IDX-th string of length LEN over ALPHABET
            // (digits of IDX in base |ALPHABET|, most significant first), then as F.try_new.
            need(a, 3)?;
            let alpha = text(a[0])?.into_bytes();
            let len = int(a[1])?;
            let mut idx = int(a[2])?;
            if alpha.is_empty() || !(0..=64).contains(&len) || idx < 0 {
                return Err("bad-arg");
            }
            let n = alpha.len() as i128;
            let mut buf = vec![0u8; len as usize];
            for k in (0..len as usize).rev() {
                buf[k] = alpha[(idx % n) as usize];
                idx /= n;
            }
            if idx != 0 {
                return Err("bad-arg");
            }
            let pic = String::from_utf8(buf).map_err(|_| "skip-utf8")?;
            let f = Formatter::try_new(&pic).map_err(en)?;
            ok(o, Lit(field_list(&f)))
        },
        "F.roundtrip" => |a, o| {
            // format, parse the text with the same formatter, format the parsed value again
            need(a, 10)?;
            with_ty!(a[0], T => {
                let v: T = rv(a[1])?;
                let pic = text(a[2])?;
                clock(&a[3..], o)?;
                let f = Formatter::try_new(&pic).map_err(en)?;
                let mut s = String::new();
                f.format(v, &mut s).map_err(en)?;
                match f.parse::<_, T>(&s) {
                    Err(e) => ok(o, (Bytes(s.into_bytes()), Lit("parse".to_string()), Lit(en(e).to_string()))),
                    Ok(v2) => {
                        let r = reads();
                        let mut s2 = String::new();
                        match f.format(v2, &mut s2) {
                            Err(e) => ok(o, (Bytes(s.into_bytes()), v2, r, Lit("format".to_string()), Lit(en(e).to_string()))),
                            Ok(()) => ok(o, (Bytes(s.into_bytes()), v2, r, Bytes(s2.into_bytes()))),
                        }
                    }
                }
            })
        },
        "F.format" => |a, o| {
            need(a, 4)?;
            with_ty!(a[0], T => {
                let v: T = rv(a[1])?;
                let pic = text(a[2])?;
                let cap = int(a[3])?;
                let f = Formatter::try_new(&pic).map_err(en)?;
                if cap < 0 {
                    let mut s = String::new();
                    f.format(v, &mut s).map_err(en)?;
                    ok(o, Bytes(s.into_bytes()))
                } else {
                    let mut s = Bounded {
                        buf: String::new(),
                        cap: usize::try_from(cap).unwrap_or(usize::MAX),
                    };
                    f.format(v, &mut s).map_err(en)?;
                    ok(o, Bytes(s.buf.into_bytes()))
                }
            })
        },
        "F.display" => |a, o| {
            need(a, 3)?;
            with_ty!(a[0], T => {
                let v: T = rv(a[1])?;
                let pic = text(a[2])?;
                let lazy = v.format(&pic).map_err(en)?;
                let mut s = String::new();
                match write!(&mut s, "{}", lazy) {
                    Ok(()) => ok(o, Bytes(s.into_bytes())),
                    Err(fmt::Error) => Err("err FormatError"),
                }
            })
        },
        "F.parse" => |a, o| {
            need(a, 10)?;
            with_ty!(a[0], T => {
                let input = text(a[1])?;
                let pic = text(a[2])?;
                clock(&a[3..], o)?;
                let f = Formatter::try_new(&pic).map_err(en)?;
                let v: T = f.parse::<_, T>(&input).map_err(en)?;
                ok(o, (v, reads()))
            })
        },
        "F.parse2" => |a, o| {
            // ONE Formatter, two parses under two clocks: the result of the second one.
            need(a, 17)?;
            with_ty!(a[0], T => {
                let input = text(a[1])?;
                let pic = text(a[2])?;
                clock(&a[3..10], o)?;
                let f = Formatter::try_new(&pic).map_err(en)?;
                let _first: Result<T, _> = f.parse::<_, T>(&input);
                clock(&a[10..17], o)?;
                let v: T = f.parse::<_, T>(&input).map_err(en)?;
                ok(o, (v, reads()))
            })
        },
        "F.parse_t" => |a, o| {
            need(a, 10)?;
            with_ty!(a[0], T => {
                let input = text(a[1])?;
                let pic = text(a[2])?;
                clock(&a[3..], o)?;
                let v: T = T::parse(&input, &pic).map_err(en)?;
                ok(o, (v, reads()))
            })
        },

        // ------------------------------------------------------------------ serde
        "S.ser_str" => |a, o| {
            need(a, 2)?;
            with_ty!(a[0], T => {
                let v: T = rv(a[1])?;
                let j = serde_json::to_string(&v).map_err(|_| SERDE)?;
                let b = j.as_bytes();
                if b.len() < 2 || b[0] != b'"' || b[b.len() - 1] != b'"' {
                    return Err(SERDE);
                }
                let inner = &b[1..b.len() - 1];
                if inner.iter().any(|&c| c == b'\\' || c == b'"') {
                    return Err(SERDE);
                }
                ok(o, Bytes(inner.to_vec()))
            })
        },
        "S.de_str" => |a, o| {
            need(a, 2)?;
            with_ty!(a[0], T => {
                let t = text(a[1])?;
                let j = serde_json::to_string(&t).map_err(|_| SERDE)?;
                let v: T = serde_json::from_str::<T>(&j).map_err(|_| SERDE)?;
                ok(o, v)
            })
        },
        "S.ser_bin" => |a, o| {
            need(a, 2)?;
            with_ty!(a[0], T => {
                let v: T = rv(a[1])?;
                let b = bincode::serialize(&v).map_err(|_| SERDE)?;
                if b.len() != <T as Raw>::WIDTH {
                    return Err(SERDE);
                }
                if b.len() == 4 {
                    ok(o, i32::from_le_bytes([b[0], b[1], b[2], b[3]]))
                } else {
                    ok(o, i64::from_le_bytes([b[0], b[1], b[2], b[3], b[4], b[5], b[6], b[7]]))
                }
            })
        },
        "S.de_bin" => |a, o| {
            need(a, 2)?;
            with_ty!(a[0], T => {
                let v: T = if <T as Raw>::WIDTH == 4 {
                    let k: i32 = sc(a[1])?;
                    bincode::deserialize::<T>(&k.to_le_bytes()).map_err(|_| SERDE)?
                } else {
                    let k: i64 = sc(a[1])?;
                    bincode::deserialize::<T>(&k.to_le_bytes()).map_err(|_| SERDE)?
                };
                ok(o, v)
            })
        },

        // ------------------------------------------------------------------ f64 (hardware)
        "f64.mul" => |a, o| {
            need(a, 2)?;
            let (x, y) = (fl(a[0])?, fl(a[1])?);
            ok(o, std::hint::black_box(x) * std::hint::black_box(y))
        },
        "f64.div" => |a, o| {
            need(a, 2)?;
            let (x, y) = (fl(a[0])?, fl(a[1])?);
            ok(o, std::hint::black_box(x) / std::hint::black_box(y))
        },
        "f64.of_i64" => |a, o| {
            need(a, 1)?;
            let k: i64 = sc(a[0])?;
            ok(o, k as f64)
        },
        "f64.round" => |a, o| {
            need(a, 1)?;
            let x = fl(a[0])?;
            ok(o, x.round())
        },
        "f64.neg" => |a, o| {
            need(a, 1)?;
            let x = fl(a[0])?;
            ok(o, -x)
        },
        "f64.to_i64" => |a, o| {
            need(a, 1)?;
            let x = fl(a[0])?;
            ok(o, x as i64)
        },
        "f64.to_i32" => |a, o| {
            need(a, 1)?;
            let x = fl(a[0])?;
            ok(o, x as i32)
        },
        "f64.to_u32" => |a, o| {
            need(a, 1)?;
            let x = fl(a[0])?;
            ok(o, x as u32)
        },
        "f64.is" => |a, o| {
            need(a, 1)?;
            let x = fl(a[0])?;
            ok(o, (x.is_nan(), x.is_infinite(), x == 0.0))
        },

        // ------------------------------------------------------------------ harness-only
        "H.hash" => |a, o| {
            need(a, 3)?;
            with_ty!(a[0], T => {
                let (x, y): (T, T) = (rv(a[1])?, rv(a[2])?);
                ok(o, hash_of(&x) == hash_of(&y))
            })
        },
        "H.de_bin_bytes" => |a, o| {
            need(a, 2)?;
            with_ty!(a[0], T => {
                let b = bytes(a[1])?;
                let v: T = bincode::deserialize::<T>(&b).map_err(|_| SERDE)?;
                ok(o, v)
            })
        },
        "H.de_json" => |a, o| {
            need(a, 2)?;
            with_ty!(a[0], T => {
                let j = text(a[1])?;
                let v: T = serde_json::from_str::<T>(&j).map_err(|_| SERDE)?;
                ok(o, v)
            })
        },

        _ => return None,
    };
    Some(f)
}
