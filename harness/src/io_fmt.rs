//! Response-line building: the `Out` buffer and the `Val` trait (how each result type is printed).

use sqldatetime::{Date, IntervalDT, IntervalYM, OracleDate, Sign, Time, Timestamp, WeekDay};
use std::cmp::Ordering;

/// The response line under construction (without the trailing newline).
pub struct Out {
    s: String,
    /// Set by the clock helper; tells the runner to remove the injected clock after the request.
    pub clock_set: bool,
}

impl Out {
    pub fn new() -> Self {
        Out {
            s: String::with_capacity(256),
            clock_set: false,
        }
    }
    #[inline]
    pub fn clear(&mut self) {
        self.s.clear();
    }
    #[inline]
    pub fn set(&mut self, line: &str) {
        self.s.clear();
        self.s.push_str(line);
    }
    #[inline]
    pub fn as_bytes(&self) -> &[u8] {
        self.s.as_bytes()
    }
    /// Writes `ok V V …`.
    #[inline]
    pub fn ok<V: Val>(&mut self, v: &V) {
        self.s.clear();
        self.s.push_str("ok");
        v.put(self);
    }
    #[inline]
    pub fn int(&mut self, v: i128) {
        self.s.push(' ');
        push_int(&mut self.s, v);
    }
    #[inline]
    pub fn word(&mut self, w: &str) {
        self.s.push(' ');
        self.s.push_str(w);
    }
    #[inline]
    pub fn f64(&mut self, x: f64) {
        if x.is_nan() {
            self.s.push_str(" xnan");
        } else {
            self.s.push_str(" x");
            push_hex64(&mut self.s, x.to_bits());
        }
    }
    pub fn hex(&mut self, b: &[u8]) {
        const H: &[u8; 16] = b"0123456789abcdef";
        self.s.push_str(" s:");
        self.s.reserve(b.len() * 2);
        for &c in b {
            self.s.push(H[(c >> 4) as usize] as char);
            self.s.push(H[(c & 15) as usize] as char);
        }
    }
}

#[inline]
pub fn push_int(s: &mut String, v: i128) {
    let mut buf = [0u8; 40];
    let mut i = buf.len();
    let neg = v < 0;
    let u = v.unsigned_abs();
    if u <= u64::MAX as u128 {
        let mut u = u as u64;
        loop {
            i -= 1;
            buf[i] = b'0' + (u % 10) as u8;
            u /= 10;
            if u == 0 {
                break;
            }
        }
    } else {
        let mut u = u;
        loop {
            i -= 1;
            buf[i] = b'0' + (u % 10) as u8;
            u /= 10;
            if u == 0 {
                break;
            }
        }
    }
    if neg {
        i -= 1;
        buf[i] = b'-';
    }
    // SAFETY-free: the bytes are ASCII digits and '-'.
    s.push_str(std::str::from_utf8(&buf[i..]).unwrap_or(""));
}

#[inline]
pub fn push_hex64(s: &mut String, v: u64) {
    const H: &[u8; 16] = b"0123456789abcdef";
    let mut buf = [0u8; 16];
    for (k, b) in buf.iter_mut().enumerate() {
        *b = H[((v >> (60 - 4 * k)) & 15) as usize];
    }
    s.push_str(std::str::from_utf8(&buf).unwrap_or(""));
}

/// A printable result value (or a tuple of them).
pub trait Val {
    fn put(&self, o: &mut Out);
}

macro_rules! val_int {
    ($($t:ty),*) => {$(
        impl Val for $t {
            #[inline]
            fn put(&self, o: &mut Out) { o.int(*self as i128) }
        }
    )*};
}
val_int!(i32, u32, i64, u64, i128);

impl Val for () {
    #[inline]
    fn put(&self, _: &mut Out) {}
}
impl Val for bool {
    #[inline]
    fn put(&self, o: &mut Out) {
        o.int(*self as i128)
    }
}
impl Val for f64 {
    #[inline]
    fn put(&self, o: &mut Out) {
        o.f64(*self)
    }
}
impl Val for Ordering {
    #[inline]
    fn put(&self, o: &mut Out) {
        o.int(*self as i8 as i128)
    }
}
impl Val for Sign {
    #[inline]
    fn put(&self, o: &mut Out) {
        o.int(*self as i32 as i128)
    }
}
impl Val for WeekDay {
    #[inline]
    fn put(&self, o: &mut Out) {
        o.int(*self as i32 as i128)
    }
}
impl<T: Val> Val for Option<T> {
    #[inline]
    fn put(&self, o: &mut Out) {
        match self {
            Some(v) => v.put(o),
            None => o.word("-"),
        }
    }
}

/// Byte string, printed as `s:` + hex.
pub struct Bytes(pub Vec<u8>);
impl Val for Bytes {
    fn put(&self, o: &mut Out) {
        o.hex(&self.0)
    }
}
/// Literal text, printed as is (field lists).
pub struct Lit(pub String);
impl Val for Lit {
    fn put(&self, o: &mut Out) {
        o.word(&self.0)
    }
}

macro_rules! val_raw {
    ($($t:ty => $acc:ident),*) => {$(
        impl Val for $t {
            #[inline]
            fn put(&self, o: &mut Out) { o.int(self.$acc() as i128) }
        }
    )*};
}
val_raw!(Date => days, Time => usecs, Timestamp => usecs, IntervalYM => months,
         IntervalDT => usecs, OracleDate => usecs);

macro_rules! val_tuple {
    ($(($($n:tt $t:ident),+))*) => {$(
        impl<$($t: Val),+> Val for ($($t,)+) {
            #[inline]
            fn put(&self, o: &mut Out) { $(self.$n.put(o);)+ }
        }
    )*};
}
val_tuple! {
    (0 A, 1 B)
    (0 A, 1 B, 2 C)
    (0 A, 1 B, 2 C, 3 D)
    (0 A, 1 B, 2 C, 3 D, 4 E)
    (0 A, 1 B, 2 C, 3 D, 4 E, 5 F)
    (0 A, 1 B, 2 C, 3 D, 4 E, 5 F, 6 G)
}
