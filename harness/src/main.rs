//! `sqldt-harness`: line-protocol driver over the real `sqldatetime` crate.
//!
//! The protocol is specified in `/verif/PROTOCOL.md`. One request line on stdin gives exactly one
//! response line on stdout (`@range` gives one `#blk` line per block).
//!
//! Adding an operation = adding one arm to the `match` in [`resolve`].

mod io_fmt;
mod ops;

use io_fmt::Out;
use std::io::{self, BufRead, Write};
use std::panic::{catch_unwind, AssertUnwindSafe};

/// An early exit from an operation: the complete response line (`bad-op`, `err KIND`, ...).
pub type Stop = &'static str;
pub type R<T> = Result<T, Stop>;
/// An operation: parses its arguments, calls the crate, writes the `ok …` line into `Out`.
pub type OpFn = for<'a, 'b, 'c> fn(&'a [&'b str], &'c mut Out) -> R<()>;

const FNV_OFFSET: u64 = 0xcbf2_9ce4_8422_2325;
const FNV_PRIME: u64 = 0x0000_0100_0000_01b3;

/// Runs one resolved operation; afterwards `o` holds exactly the response line (no newline).
#[inline]
fn run(f: Option<OpFn>, args: &[&str], o: &mut Out) {
    o.clear();
    let res = match f {
        None => Err("bad-op"),
        Some(f) => match catch_unwind(AssertUnwindSafe(|| f(args, o))) {
            Ok(r) => r,
            Err(_) => Err("panic"),
        },
    };
    if let Err(s) = res {
        o.set(s);
    }
    if o.clock_set {
        sqldatetime::verif_hooks::set_now(None);
        o.clock_set = false;
    }
}

fn range<W: Write>(toks: &[&str], o: &mut Out, w: &mut W, flush: bool) -> io::Result<()> {
    // @range LO HI STEP BLK OP ARG…
    let hdr = (|| -> R<(i128, i128, i128, i128)> {
        if toks.len() < 6 {
            return Err("bad-op");
        }
        let lo = ops::int(toks[1])?;
        let hi = ops::int(toks[2])?;
        let step = ops::int(toks[3])?;
        let blk = ops::int(toks[4])?;
        if step <= 0 || blk <= 0 {
            return Err("bad-op");
        }
        Ok((lo, hi, step, blk))
    })();
    let (lo, hi, step, blk) = match hdr {
        Ok(h) => h,
        Err(s) => {
            w.write_all(s.as_bytes())?;
            w.write_all(b"\n")?;
            return Ok(());
        }
    };
    let f = ops::resolve(toks[5]);
    let templ = &toks[6..];
    let n = templ.len();
    const MAXA: usize = 16;
    // No operation takes more than MAXA arguments, so a longer template is `bad-op` every time.
    let f = if n > MAXA { None } else { f };
    let n = n.min(MAXA);
    let mut is_pct = [false; MAXA];
    for k in 0..n {
        is_pct[k] = templ[k] == "%";
    }

    let mut num = String::with_capacity(48);
    let mut line = String::with_capacity(64);
    let mut i = lo;
    let mut first = lo;
    let mut cnt: i128 = 0;
    let mut h = FNV_OFFSET;
    while i <= hi {
        if cnt == 0 {
            first = i;
            h = FNV_OFFSET;
        }
        num.clear();
        io_fmt::push_int(&mut num, i);
        let mut argv: [&str; MAXA] = [""; MAXA];
        for k in 0..n {
            argv[k] = if is_pct[k] { num.as_str() } else { templ[k] };
        }
        run(f, &argv[..n], o);
        for &b in o.as_bytes() {
            h = (h ^ b as u64).wrapping_mul(FNV_PRIME);
        }
        h = (h ^ b'\n' as u64).wrapping_mul(FNV_PRIME);
        cnt += 1;
        if cnt == blk {
            emit_blk(w, &mut line, first, cnt, h, flush)?;
            cnt = 0;
        }
        match i.checked_add(step) {
            Some(x) => i = x,
            None => break,
        }
    }
    if cnt > 0 {
        emit_blk(w, &mut line, first, cnt, h, flush)?;
    }
    Ok(())
}

fn emit_blk<W: Write>(
    w: &mut W,
    line: &mut String,
    first: i128,
    cnt: i128,
    h: u64,
    flush: bool,
) -> io::Result<()> {
    line.clear();
    line.push_str("#blk ");
    io_fmt::push_int(line, first);
    line.push(' ');
    io_fmt::push_int(line, cnt);
    line.push(' ');
    io_fmt::push_hex64(line, h);
    line.push('\n');
    w.write_all(line.as_bytes())?;
    if flush {
        w.flush()?;
    }
    Ok(())
}

fn main() {
    match real_main() {
        Ok(()) => {}
        // The reader went away (e.g. `| head`): not an error worth reporting.
        Err(e) if e.kind() == io::ErrorKind::BrokenPipe => {}
        Err(e) => {
            eprintln!("sqldt-harness: {}", e);
            std::process::exit(1);
        }
    }
}

fn real_main() -> io::Result<()> {
    std::panic::set_hook(Box::new(|_| {}));
    let flush = std::env::var("HARNESS_FLUSH").map(|v| v == "1").unwrap_or(false);

    let stdin = io::stdin();
    let mut inp = stdin.lock();
    let stdout = io::stdout();
    let mut w = io::BufWriter::with_capacity(1 << 16, stdout.lock());

    let mut o = Out::new();
    let mut buf: Vec<u8> = Vec::with_capacity(256);
    loop {
        buf.clear();
        if inp.read_until(b'\n', &mut buf)? == 0 {
            break;
        }
        if buf.last() == Some(&b'\n') {
            buf.pop();
        }
        if buf.is_empty() || buf[0] == b'#' {
            w.write_all(&buf)?;
            w.write_all(b"\n")?;
        } else {
            match std::str::from_utf8(&buf) {
                Err(_) => w.write_all(b"bad-op\n")?,
                Ok(line) => {
                    let t: Vec<&str> = line.split(' ').collect();
                    if t[0] == "@range" {
                        range(&t, &mut o, &mut w, flush)?;
                    } else {
                        run(ops::resolve(t[0]), &t[1..], &mut o);
                        w.write_all(o.as_bytes())?;
                        w.write_all(b"\n")?;
                    }
                }
            }
        }
        if flush {
            w.flush()?;
        }
    }
    w.flush()
}
